//! mvh_cont — container formats: fe9 "pack" archives (C15), 3DS arc extraction (C16), animation-set files
//! (C17) and asset binaries (C18).  For every format two directions:
//!   <fmt>-replay <cases.ndjson> <out.ndjson>   cases printed by TLC (spec/MC_<X>.tla, Gen_<X>.cfg) replayed on mila
//!   <fmt>-record <out.ndjson> <n> ...          seeded random values driven through mila, logged for Trace_<X>.tla
//! This file only drives mila, projects what it returns and compares with what TLC printed; every expected
//! value comes from the TLA+ specifications.
use indexmap::IndexMap;
use mila::{ASetFile, AssetBinary, AssetSpec, BinArchive, Endian};
use mvh::proj;
use mvh::util::*;
use serde_json::{json, Value};

// ------------------------------------------------------------------------------------------------ common
fn opt_none() -> Value {
    json!({"some": false, "v": []})
}
/// Shift-JIS bytes of a string mila returned; a string with no Shift-JIS form (only possible when mila decoded
/// something it should not have) becomes [-1, code points...]: still a sequence of integers, so TLC can
/// compare it, and never equal to a byte sequence.
fn name_json(s: &str) -> Value {
    match string_to_sjis(s) {
        Some(b) => bytes_to_json(&b),
        None => Value::Array(std::iter::once(json!(-1)).chain(s.chars().map(|c| json!(c as u32))).collect()),
    }
}
fn opt_to_json(s: &Option<String>) -> Value {
    match s {
        None => opt_none(),
        Some(s) => json!({"some": true, "v": name_json(s)}),
    }
}
fn json_to_opt(v: &Value) -> Option<String> {
    if v["some"].as_bool().unwrap() {
        Some(sjis_to_string(&json_to_bytes(&v["v"])))
    } else {
        None
    }
}
fn u(v: &Value) -> usize {
    v.as_u64().expect("unsigned") as usize
}

/// Archive content as the specifications see it: the projection of mvh::proj with the four data bytes of
/// every annotated cell (string / pointer) set to zero — after from_bytes those bytes hold file offsets of
/// the text section, which are representation, not content.
fn masked_projection(a: &BinArchive, endian: &str) -> Value {
    let mut p = proj::project(a, endian);
    let mut cells: Vec<usize> = Vec::new();
    for key in ["text", "ptrs"] {
        for e in p[key].as_array().unwrap() {
            cells.push(u(&e[0]));
        }
    }
    let data = p["data"].as_array_mut().unwrap();
    for c in cells {
        for k in 0..4 {
            if c + k < data.len() {
                data[c + k] = json!(0);
            }
        }
    }
    p
}

/// Sample of lossless Shift-JIS characters (1 byte, half-width kana, 2-byte incl. trail bytes 0x5C / 0x7C).
const SJIS_CHARS: &[char] = &[
    'a', 'Z', '0', '_', '.', ' ', '-', 'ｱ', 'ﾝ', 'あ', 'ん', 'ソ', '表', '能', '十', 'Ａ', '　', '漢', '字', '①',
];
/// A name whose Shift-JIS form is `target` bytes long: an ODD number of single-byte characters, then a run of
/// double-byte characters (so one of them straddles every even byte offset such as 64 or 128), then at most
/// one single-byte character to reach the length.
fn straddling_name(rng: &mut Rng, target: usize) -> String {
    let singles = ['a', 'Z', '0', '_'];
    let doubles = ['あ', 'ん', 'ソ', '表', '漢', '十'];
    let mut s = String::new();
    let lead = if target >= 3 && rng.chance(1, 3) { 3 } else { 1 };
    for _ in 0..lead.min(target) {
        s.push(*rng.pick(&singles));
    }
    let mut len = lead.min(target);
    while len + 2 <= target {
        s.push(*rng.pick(&doubles));
        len += 2;
    }
    if len < target {
        s.push(*rng.pick(&singles));
    }
    debug_assert!(sjis_lossless(&s));
    s
}
const STRADDLE_LENGTHS: &[usize] = &[63, 64, 65, 127, 128, 129];

/// A parse result must depend on the image alone.  Before every parse that is compared, the same parser is
/// run on damaged copies of the same image on the same thread (cut inside the last string, inside the text
/// section / name table, inside the tables); whatever these attempts return is ignored.
fn prime_with_damaged_copies(bytes: &[u8], extra_cuts: &[usize], parser: &dyn Fn(&[u8])) {
    let len = bytes.len();
    let mut cuts = vec![len.saturating_sub(1), len.saturating_sub(2), len.saturating_sub(3), len.saturating_sub(5),
                        len / 2 + 17, len / 3, 2 * len / 3 + 5];
    cuts.extend_from_slice(extra_cuts);
    for cut in cuts {
        if cut < len {
            let _ = catch(|| parser(&bytes[..cut]));
        }
    }
}

fn random_name(rng: &mut Rng, max_chars: usize, allow_empty: bool) -> String {
    if rng.chance(1, 12) {
        let target = *rng.pick(STRADDLE_LENGTHS);
        return straddling_name(rng, target);
    }
    loop {
        let n = if allow_empty && rng.chance(1, 10) { 0 } else { rng.range(1, max_chars) };
        let s: String = (0..n).map(|_| *rng.pick(SJIS_CHARS)).collect();
        if sjis_lossless(&s) {
            return s;
        }
    }
}

// ------------------------------------------------------------------------------------------------ C15 pack
fn pack_value_to_map(v: &Value) -> Result<IndexMap<String, Vec<u8>>, String> {
    let mut m = IndexMap::new();
    for f in v.as_array().unwrap() {
        let nb = json_to_bytes(&f[0]);
        let name = sjis_to_string(&nb);
        if string_to_sjis(&name).as_deref() != Some(&nb[..]) {
            return Err(format!("name bytes {:?} are not a lossless Shift-JIS string", nb));
        }
        if m.insert(name, json_to_bytes(&f[1])).is_some() {
            return Err("duplicate name".to_string());
        }
    }
    Ok(m)
}
fn pack_map_to_value(m: &IndexMap<String, Vec<u8>>) -> Value {
    Value::Array(
        m.iter()
            .map(|(k, b)| json!([name_json(k), bytes_to_json(b)]))
            .collect(),
    )
}
/// parse -> {"ok":true,"v":[[name,body]..]} | {"ok":false,"v":[],"err":..} | {"panic":..}
fn pack_parse(bytes: &[u8]) -> Value {
    // damaged copies: cuts inside the first names of the name table (it starts right after the entry table)
    let table_end = if bytes.len() >= 6 { 8 + 16 * (((bytes[4] as usize) << 8) | bytes[5] as usize) } else { 0 };
    let cuts: Vec<usize> = [1usize, 2, 3, 5, 8, 13, 21, 70].iter().map(|k| table_end + k).collect();
    prime_with_damaged_copies(bytes, &cuts, &|b| {
        let _ = mila::fe9_arc::parse(b);
    });
    match catch(|| mila::fe9_arc::parse(bytes)) {
        Ok(Ok(m)) => json!({"ok": true, "v": pack_map_to_value(&m)}),
        Ok(Err(e)) => json!({"ok": false, "v": [], "err": e.to_string()}),
        Err(p) => json!({ "panic": p }),
    }
}
fn pack_serialize(m: &IndexMap<String, Vec<u8>>) -> Result<Vec<u8>, Value> {
    match catch(|| mila::fe9_arc::serialize(m)) {
        Ok(Ok(b)) => Ok(b),
        Ok(Err(e)) => Err(json!({"ok": false, "err": e.to_string()})),
        Err(p) => Err(json!({ "panic": p })),
    }
}

/// Replays generated cases.  What mila's own builder emits is NOT judged here: every serialized image is
/// logged to `events_path` (same event shape as pack-record) and validated by Trace_Fe9Pack, i.e. by the
/// statement's conditions evaluated by TLC on mila's bytes.  A difference from CanonPack(v) is reported as
/// kind "info" only (where names sit and how they are padded is not fixed by the property).
fn pack_replay(cases_path: &str, out_path: &str, events_path: &str) {
    let cases = read_ndjson(cases_path);
    let mut out = NdWriter::create(out_path);
    let mut events = NdWriter::create(events_path);
    let (mut n, mut bad, mut unbuildable, mut images) = (0u64, 0u64, 0u64, 0u64);
    for (i, c) in cases.iter().enumerate() {
        n += 1;
        let map = match pack_value_to_map(&c["v"]) {
            Ok(m) => m,
            Err(e) => {
                unbuildable += 1;
                out.put(&json!({"kind": "unbuildable", "i": i, "why": e}));
                continue;
            }
        };
        let expect = json!({"ok": true, "v": c["v"]});
        // builder: the image goes to the trace validator; byte equality with CanonPack(v) is information only
        let mut ev = pack_event(&map, "full");
        ev["src"] = json!("replay");
        ev["case"] = json!(i);
        events.put(&ev);
        if let Ok(b) = pack_serialize(&map) {
            if bytes_to_json(&b) != c["canon"] {
                out.put(&json!({"kind": "info", "what": "serialize-differs-from-canon", "i": i, "got_len": b.len(), "canon_len": c["canon"].as_array().unwrap().len()}));
            }
            // build -> parse identity (the expected value is the input itself)
            let back = pack_parse(&b);
            if back != expect {
                bad += 1;
                out.put(&json!({"kind": "mismatch", "what": "parse-own-image", "i": i, "v": c["v"], "image": bytes_to_json(&b), "got": back}));
            }
        }
        // reader: the canonical image and every conforming re-arrangement
        let mut imgs: Vec<(&str, usize, &Value)> = vec![("parse-canon", 0, &c["canon"])];
        for (k, l) in c["layouts"].as_array().unwrap().iter().enumerate() {
            imgs.push(("parse-layout", k, l));
        }
        for (what, k, img) in imgs {
            images += 1;
            let got = pack_parse(&json_to_bytes(img));
            if got != expect {
                bad += 1;
                out.put(&json!({"kind": "mismatch", "what": what, "i": i, "layout": k, "v": c["v"], "image": img, "got": got}));
            }
        }
    }
    out.put(&json!({"kind": "summary", "cases": n, "images": images, "mismatches": bad, "unbuildable": unbuildable}));
    out.finish();
    events.finish();
}

fn pack_random_len(rng: &mut Rng) -> usize {
    match rng.below(10) {
        0 => 0,
        1..=6 => {
            let k = rng.range(0, 6) * 32;
            let d = *rng.pick(&[-1i64, 0, 1, 0, 31, -31]);
            (k as i64 + d).max(0) as usize
        }
        _ => rng.range(1, 300),
    }
}
fn pack_event(map: &IndexMap<String, Vec<u8>>, mode: &str) -> Value {
    let value = pack_map_to_value(map);
    match pack_serialize(map) {
        Ok(b) => {
            let parsed = pack_parse(&b);
            json!({"mode": mode, "src": "random", "value": value, "ser": "ok", "bytes": bytes_to_json(&b), "parsed": parsed})
        }
        Err(e) => json!({"mode": mode, "src": "random", "value": value, "ser": e.to_string(), "bytes": [], "parsed": {"ok": false, "v": []}}),
    }
}
/// A map with `n` files, almost all empty (cheap to validate), a few non-empty ones sprinkled in.
fn pack_many_files(rng: &mut Rng, n: usize) -> IndexMap<String, Vec<u8>> {
    let mut map: IndexMap<String, Vec<u8>> = IndexMap::new();
    for i in 0..n {
        let name = if i % 1000 == 7 { format!("あ{}", i) } else { format!("f{}", i) };
        let body = if i % 997 == 3 || i + 1 == n { let len = pack_random_len(rng).max(1); rng.bytes(len) } else { Vec::new() };
        map.insert(name, body);
    }
    map
}
/// file counts around the powers of two where a narrower integer or a shifted count would wrap
const PACK_COUNT_BOUNDS: &[usize] = &[255, 256, 257, 4095, 4096, 4097, 20000];
/// the upper edge of the statement's quantifier ("up to 65535 named files")
const PACK_COUNT_EDGE: &[usize] = &[65534, 65535];

/// byte k of the rule-built body of file i (0-based); the same rule is BodyByte in spec/Fe9Pack.tla
fn pack_rule_byte(i: usize, k: usize) -> u8 {
    ((k * 31 + i * 7 + (k >> 8)) % 256) as u8
}
fn edge_samples(b: &[u8]) -> Value {
    let m = b.len().min(32);
    json!({"len": b.len(), "first": bytes_to_json(&b[..m]), "last": bytes_to_json(&b[b.len() - m..])})
}
/// A pack whose data section crosses 2^24 (2^25) BYTES: bodies of the given lengths built by rule.  Only the rule,
/// the header + entry table, the bytes at each recorded name address and the first / last 32 bytes of every body
/// (as found in the image at the recorded address, and as returned by parse) travel to TLC, which decides
/// sizes, alignment, containment, non-overlap and the sampled bytes from the lengths alone (BigBodiesFailed).
fn pack_big_bodies_event(lens: &[usize]) -> Value {
    let n = lens.len();
    let mut map: IndexMap<String, Vec<u8>> = IndexMap::new();
    for (i, len) in lens.iter().enumerate() {
        map.insert(format!("g{}", i), (0..*len).map(|k| pack_rule_byte(i, k)).collect());
    }
    let names: Vec<Value> = map.keys().map(|k| name_json(k)).collect();
    let mut ev = json!({"mode": "bytes", "src": "rule", "lens": lens, "names": names, "value": [], "bytes": [], "ser": "ok",
                        "len": 0, "table": [], "names_at": [], "bodies_at": [], "parsed": {"ok": false, "v": []}, "parsed_equal": false});
    let img = match pack_serialize(&map) {
        Ok(b) => b,
        Err(e) => {
            ev["ser"] = json!(e.to_string());
            return ev;
        }
    };
    ev["len"] = json!(img.len());
    let table_len = (8 + 16 * n).min(img.len());
    ev["table"] = bytes_to_json(&img[..table_len]);
    let be32 = |a: usize| -> usize { if a + 4 <= img.len() { u32::from_be_bytes([img[a], img[a + 1], img[a + 2], img[a + 3]]) as usize } else { usize::MAX } };
    let mut names_at = Vec::new();
    let mut bodies_at = Vec::new();
    for i in 0..n {
        let (na, fa, sz) = (be32(8 + 16 * i + 4), be32(8 + 16 * i + 8), be32(8 + 16 * i + 12));
        // bytes at the recorded name address up to the terminator ([-1] if there is none within the image)
        names_at.push(match img.get(na..).and_then(|t| t.iter().position(|b| *b == 0).map(|z| &t[..z])) {
            Some(nm) if nm.len() <= 64 => bytes_to_json(nm),
            _ => json!([-1]),
        });
        // the recorded range as the image holds it (clipped to the image: TLC sees a short sample then)
        let end = fa.saturating_add(sz).min(img.len());
        bodies_at.push(if fa <= end { edge_samples(&img[fa..end]) } else { json!({"len": 0, "first": [], "last": []}) });
    }
    ev["names_at"] = Value::Array(names_at);
    ev["bodies_at"] = Value::Array(bodies_at);
    // pack_parse (primed with damaged copies) would turn the 16 MiB bodies into JSON: parse directly here
    let table_end = 8 + 16 * n;
    let cuts: Vec<usize> = [1usize, 3, 8].iter().map(|k| table_end + k).collect();
    prime_with_damaged_copies(&img, &cuts, &|b| {
        let _ = mila::fe9_arc::parse(b);
    });
    match catch(|| mila::fe9_arc::parse(&img)) {
        Ok(Ok(m)) => {
            ev["parsed_equal"] = json!(m == map && m.keys().eq(map.keys()));
            let v: Vec<Value> = m.iter().map(|(k, b)| json!([name_json(k), edge_samples(b)])).collect();
            ev["parsed"] = json!({"ok": true, "v": v});
        }
        Ok(Err(e)) => ev["parsed"] = json!({"ok": false, "v": [], "err": e.to_string()}),
        Err(p) => ev["parsed"] = json!({ "panic": p }),
    }
    ev
}
/// total BYTES around 2^24 and 2^25, with later files ending 1 / 2 bytes past a 32-byte boundary, empty files and
/// lengths around multiples of 32 after the large one
const PACK_BIG_BODIES: &[&[usize]] = &[
    &[(1 << 24) + 5, 33, 1, 0, 65, 32, 31],
    &[7, (1 << 24) - 40, 41, 33, 0, 1, 97],
    &[(1 << 25) + 3, 34, 1, 0, 2, 65, 66],
];

fn pack_record(out_path: &str, runs: usize, max_files: usize, flags: &[&str]) {
    let big = flags.contains(&"big");
    let mut rng = Rng::new(seed_from_env());
    let mut out = NdWriter::create(out_path);
    for run in 0..runs {
        let n = match run {
            0 => 0,
            1 => max_files,
            _ => {
                if rng.chance(1, 4) {
                    rng.range(0, max_files)
                } else {
                    rng.range(0, 12.min(max_files))
                }
            }
        };
        let mut map: IndexMap<String, Vec<u8>> = IndexMap::new();
        while map.len() < n {
            let mut name = random_name(&mut rng, 6, true);
            if map.contains_key(&name) {
                name.push_str(&format!("{}", map.len()));
            }
            if map.contains_key(&name) {
                continue;
            }
            let len = pack_random_len(&mut rng);
            let body = if rng.chance(1, 6) { vec![0u8; len] } else { rng.bytes(len) };
            map.insert(name, body);
        }
        out.put(&pack_event(&map, "full"));
    }
    // "including empty files": every empty / non-empty pattern over 1..5 files (first, middle, last, all, none)
    for n in 1..=5usize {
        for mask in 0..(1usize << n) {
            let mut map: IndexMap<String, Vec<u8>> = IndexMap::new();
            for i in 0..n {
                let body = if mask & (1 << i) != 0 { let len = pack_random_len(&mut rng).max(1); rng.bytes(len) } else { Vec::new() };
                map.insert(format!("p{}_{}", mask, i), body);
            }
            out.put(&pack_event(&map, "full"));
        }
    }
    if flags.contains(&"bounds") {
        for n in PACK_COUNT_BOUNDS {
            let map = pack_many_files(&mut rng, *n);
            out.put(&pack_event(&map, "full"));
        }
    }
    if flags.contains(&"bytes") {
        for lens in PACK_BIG_BODIES {
            out.put(&pack_big_bodies_event(lens));
        }
    }
    if flags.contains(&"edge") || flags.contains(&"edge-full") {
        // validated by TLC in full ("edge-full") or structurally for every entry with sampled contents ("edge")
        let mode = if flags.contains(&"edge-full") { "full" } else { "sampled" };
        for n in PACK_COUNT_EDGE {
            let map = pack_many_files(&mut rng, *n);
            out.put(&pack_event(&map, mode));
        }
        // one file more than the statement covers: nothing is demanded, the outcome is only reported
        let map = pack_many_files(&mut rng, 65536);
        let outcome = match pack_serialize(&map) {
            Ok(b) => {
                let back = catch(|| mila::fe9_arc::parse(&b));
                match back {
                    Ok(Ok(m)) => if m == map { "built and parses back".to_string() } else { format!("built, parses back as {} files", m.len()) },
                    Ok(Err(e)) => format!("built, parse error: {}", e),
                    Err(p) => format!("built, parse panic {}", p),
                }
            }
            Err(e) => format!("refused: {}", e),
        };
        out.put(&json!({"mode": "beyond", "src": "random", "value": [], "ser": "ok", "bytes": [], "parsed": {"ok": true, "v": []}, "files": 65536, "outcome": outcome}));
    }
    if big {
        // the statement's upper limit: 65 535 (empty) files
        let mut map: IndexMap<String, Vec<u8>> = IndexMap::new();
        for i in 0..65535usize {
            let name = if i % 1000 == 7 { format!("あ{}", i) } else { format!("f{}", i) };
            map.insert(name, Vec::new());
        }
        out.put(&pack_event(&map, "full"));
    }
    out.finish();
}

// ------------------------------------------------------------------------------------------------ C16 arc
/// arc::from_bytes -> {"ok":true,"files":[[name,bytes]..] sorted by name} | {"ok":false,"files":[],"err":..} | {"panic":..}
fn arc_extract(bytes: &[u8]) -> Value {
    prime_with_damaged_copies(bytes, &[], &|b| {
        let _ = mila::arc::from_bytes(b);
    });
    match catch(|| mila::arc::from_bytes(bytes)) {
        Ok(Ok(m)) => {
            let mut files: Vec<(Vec<u8>, Value)> = m
                .iter()
                .map(|(k, b)| (k.as_bytes().to_vec(), json!([name_json(k), bytes_to_json(b)])))
                .collect();
            files.sort_by(|a, b| a.0.cmp(&b.0));
            json!({"ok": true, "files": files.into_iter().map(|x| x.1).collect::<Vec<Value>>()})
        }
        Ok(Err(e)) => json!({"ok": false, "files": [], "err": format!("{:?}", e)}),
        Err(p) => json!({ "panic": p }),
    }
}
/// map equality between an extraction result and the expected [ok, files] printed by TLC
fn arc_matches(got: &Value, expect: &Value) -> bool {
    if expect["ok"].as_bool().unwrap() {
        if got["ok"].as_bool() != Some(true) {
            return false;
        }
        let key = |f: &Value| serde_json::to_string(f).unwrap();
        let mut a: Vec<String> = got["files"].as_array().unwrap().iter().map(key).collect();
        let mut b: Vec<String> = expect["files"].as_array().unwrap().iter().map(key).collect();
        a.sort();
        b.sort();
        a == b
    } else {
        got["ok"].as_bool() == Some(false)
    }
}
/// archive content the container layer shows for an image (None if it does not even parse)
fn container_content(image: &[u8]) -> Option<Value> {
    prime_with_damaged_copies(image, &[], &|b| {
        let _ = BinArchive::from_bytes(b, Endian::Little);
    });
    match catch(|| BinArchive::from_bytes(image, Endian::Little)) {
        Ok(Ok(a)) => Some(masked_projection(&a, "le")),
        _ => None,
    }
}
fn build_image(content: &Value) -> Result<Vec<u8>, String> {
    match catch(|| proj::build(content).and_then(|a| a.serialize().map_err(|e| e.to_string()))) {
        Ok(r) => r,
        Err(p) => Err(format!("panic {}", p)),
    }
}

fn arc_replay(cases_path: &str, out_path: &str) {
    let cases = read_ndjson(cases_path);
    let mut out = NdWriter::create(out_path);
    let (mut n, mut bad, mut unbuildable, mut images, mut container_mismatch) = (0u64, 0u64, 0u64, 0u64, 0u64);
    for (i, c) in cases.iter().enumerate() {
        n += 1;
        // (1) the image the specification derives: BinFormat!Canon(content)
        let image = json_to_bytes(&c["image"]);
        let got = arc_extract(&image);
        images += 1;
        if !arc_matches(&got, &c["expect"]) {
            bad += 1;
            out.put(&json!({"kind": "mismatch", "what": "canon-image", "i": i, "case_kind": c["kind"], "got": got}));
        }
        // (1b) a non-canonical image of the same content (reversed tables, duplicated text section)
        if let Some(alt) = c.get("alt").and_then(|a| a.as_array()).filter(|a| !a.is_empty()) {
            images += 1;
            let got = arc_extract(&json_to_bytes(&Value::Array(alt.clone())));
            if !arc_matches(&got, &c["expect"]) {
                bad += 1;
                out.put(&json!({"kind": "mismatch", "what": "alt-image", "i": i, "case_kind": c["kind"], "got": got}));
            }
        }
        // (2) the same content built through mila's own archive writer
        match build_image(&c["content"]) {
            Ok(b) => {
                if b != image {
                    // a different image of the same content is judged only if the container layer (C01/C02, not
                    // this property) reads the content back from it
                    if container_content(&b).as_ref() == Some(&c["content"]) {
                        images += 1;
                        let got = arc_extract(&b);
                        if !arc_matches(&got, &c["expect"]) {
                            bad += 1;
                            out.put(&json!({"kind": "mismatch", "what": "built-image", "i": i, "case_kind": c["kind"], "got": got}));
                        }
                    } else {
                        container_mismatch += 1;
                    }
                }
            }
            Err(e) => {
                unbuildable += 1;
                out.put(&json!({"kind": "unbuildable", "i": i, "why": e}));
            }
        }
    }
    out.put(&json!({"kind": "summary", "cases": n, "images": images, "mismatches": bad, "unbuildable": unbuildable,
                    "container_mismatch": container_mismatch}));
    out.finish();
}

fn le32(x: usize) -> [u8; 4] {
    (x as u32).to_le_bytes()
}
/// Random arc layout -> archive content (the test INPUT; Trace_Arc3ds decides whether it conforms and what
/// must be extracted from it).
fn arc_random_content(rng: &mut Rng, max_files: usize) -> (String, Value) {
    let n = if rng.chance(1, 10) { 0 } else if rng.chance(1, 5) { rng.range(1, max_files) } else { rng.range(1, 8.min(max_files)) };
    let mut names: Vec<String> = Vec::new();
    while names.len() < n {
        let mut s = random_name(rng, 8, false);
        if names.contains(&s) {
            s.push_str(&format!("{}", names.len()));
        }
        if !names.contains(&s) {
            names.push(s);
        }
    }
    let bodies: Vec<Vec<u8>> = (0..n)
        .map(|_| {
            let len = match rng.below(6) {
                0 => 0,
                1 => rng.range(1, 5),
                2 => *rng.pick(&[31usize, 32, 33, 127, 128, 129]),
                _ => rng.range(0, 200),
            };
            if rng.chance(1, 8) { vec![0u8; len] } else { rng.bytes(len) }
        })
        .collect();
    arc_layout(rng, &names, &bodies, true)
}

/// names/bodies by rule for the large-count images (the same rule is BigName / BigBody in spec/Arc3ds.tla)
fn arc_rule_name(i: usize) -> String {
    if i % 1000 == 7 { format!("あ{}", i) } else { format!("f{}", i) }
}
fn arc_rule_body(i: usize) -> Vec<u8> {
    if i % 251 == 0 { vec![(i % 256) as u8, ((i / 256) % 256) as u8] } else { Vec::new() }
}

/// Random placement of the given files in an arc (the one builder behind every harness-made arc: random small
/// ones, whose content TLC validates in full, and the large-count ones, which TLC can only sample).
fn arc_layout(rng: &mut Rng, names: &[String], bodies: &[Vec<u8>], allow_errors: bool) -> (String, Value) {
    let n = names.len();
    let padded = rng.chance(1, 2);
    let base = if padded { 0x60 } else { 0 };
    #[derive(Clone)]
    enum It {
        Count,
        Info,
        Body(usize),
        Gap(Vec<u8>),
    }
    let mut items: Vec<It> = (0..n).map(It::Body).collect();
    items.push(It::Count);
    items.push(It::Info);
    if rng.chance(2, 3) {
        rng.shuffle(&mut items);
    }
    if rng.chance(1, 5) {
        // Info table (or Count word) first
        let want_info = rng.chance(2, 3);
        if let Some(k) = items.iter().position(|it| if want_info { matches!(it, It::Info) } else { matches!(it, It::Count) }) {
            items.swap(0, k);
        }
    }
    let mut placed: Vec<It> = Vec::new();
    // un-padded: the first data word must be non-zero.  A non-empty Info table (first word = text offset of a
    // name) or a non-zero Count word may open the region; otherwise a lead gap with a non-zero byte does
    let opens_nonzero = n >= 1 && matches!(items.first(), Some(It::Info) | Some(It::Count));
    let table_first = !padded && opens_nonzero && rng.chance(2, 3);
    if !padded && !table_first {
        // first data WORD non-zero (its first bytes may well be zero)
        let mut lead = vec![0u8; rng.below(4)];
        lead.push(rng.range(1, 255) as u8);
        placed.push(It::Gap(lead));
    }
    for (k, it) in items.into_iter().enumerate() {
        if rng.chance(1, 4) && !(table_first && k == 0) {
            let g = rng.range(1, 9);
            placed.push(It::Gap(rng.bytes(g)));
        }
        placed.push(it);
    }
    let mut recs: Vec<usize> = (0..n).collect();
    if rng.chance(2, 3) {
        rng.shuffle(&mut recs);
    }
    // pass 1: addresses
    let mut pos = base;
    let (mut count_addr, mut info_addr) = (0usize, 0usize);
    let mut body_addr = vec![0usize; n];
    for it in &placed {
        match it {
            It::Count => {
                pos = (pos + 3) / 4 * 4;
                count_addr = pos;
                pos += 4;
            }
            It::Info => {
                pos = (pos + 3) / 4 * 4;
                info_addr = pos;
                pos += 16 * n;
            }
            It::Body(i) => {
                body_addr[*i] = pos;
                pos += bodies[*i].len();
            }
            It::Gap(g) => pos += g.len(),
        }
    }
    let end = pos;
    // planted defect
    let kind = if allow_errors && n >= 1 && rng.chance(1, 12) {
        "overlap" // conforming: one record's range is the Count word or the numeric fields of the first record
    } else if allow_errors && rng.chance(1, 5) {
        *rng.pick(if n == 0 { &["nocount", "noinfo"][..] } else { &["nocount", "noinfo", "noname", "nameptr", "nameptr", "end", "start", "words", "words", "wrapsum"][..] })
    } else {
        "ok"
    };
    let victim = if n > 0 { rng.below(n) } else { 0 };
    // pass 2: bytes
    let nameptr_listed = rng.chance(2, 3);
    let mut nameptr_target = 0usize;
    let mut data = vec![0u8; base];
    for it in &placed {
        match it {
            It::Count => {
                while data.len() % 4 != 0 {
                    data.push(0);
                }
                data.extend(le32(n));
            }
            It::Info => {
                while data.len() % 4 != 0 {
                    data.push(0);
                }
                for (j, f) in recs.iter().enumerate() {
                    // field values as u64 so that the whole u32 range can be planted
                    let mut size = bodies[*f].len() as u64;
                    let mut off = (body_addr[*f] - base) as u64;
                    if j == victim && kind == "end" {
                        size = (end - body_addr[*f] + 1 + rng.below(40)) as u64;
                    }
                    if j == victim && kind == "start" {
                        off = (end - base + 1 + rng.below(40)) as u64;
                        size = size.max(1);
                    }
                    if j == victim && kind == "words" {
                        // out-of-range offset and/or size anywhere in the 32-bit range
                        let far = |rng: &mut Rng| -> u64 {
                            match rng.below(6) {
                                0 => (end + 1 + rng.below(100_000)) as u64,              // past the end
                                1 => 0x7FFF_FF00 + rng.below(0x200) as u64,              // around 2^31
                                2 => 0xFFFF_FFA0 + rng.below(0x60) as u64,               // + 0x60 wraps modulo 2^32
                                3 => 0xFFFF_FF00 + rng.below(0xA0) as u64,               // just below those
                                4 => 0x1_0000_0000 - 1 - rng.below(0x1_0000) as u64,     // top of the range
                                _ => rng.next() % 0xFFFF_0000 + 0x1_0000,                // anywhere far out
                            }
                        };
                        size = size.max(1);
                        match rng.below(3) {
                            0 => off = far(rng),
                            1 => size = far(rng),
                            _ => {
                                // offset far out, size chosen so that offset (+ header) + size is small modulo 2^32
                                off = far(rng).max(0x8000_0000);
                                size = (0x1_0000_0000u64 - off) + rng.below(8) as u64 + if padded && rng.chance(1, 2) { 0 } else { 0x60 };
                                size = size.clamp(1, 0xFFFF_FFFF);
                            }
                        }
                    }
                    if j == victim && kind == "overlap" {
                        if rng.chance(1, 2) {
                            off = (count_addr - base) as u64;
                            size = 4;
                        } else {
                            let skip = rng.below(3) * 4; // index / size / offset field onwards
                            off = (info_addr + 4 + skip - base) as u64;
                            size = (12 - skip) as u64;
                        }
                    }
                    if j == victim && kind == "wrapsum" {
                        // start inside the region, start + size = small value modulo 2^32
                        let a = body_addr[*f].max(1);
                        size = 0x1_0000_0000u64 - a as u64 + rng.below(a.min(4)) as u64; // < 2^32: it is the stored word
                    }
                    if j == victim && kind == "nameptr" {
                        // the name cell holds a value that is an address of the data region (end included), not a
                        // string reference; whether it is also listed in the pointer table is decided below
                        let t = match rng.below(6) { 0 => 0, 1 => info_addr + 16 * j, 2 => end - 4, 3 => end - 1, 4 => end, _ => rng.below(end + 1) };
                        nameptr_target = t;
                        data.extend(le32(if nameptr_listed { 0 } else { t }));
                    } else {
                        data.extend([0u8; 4]);
                    }
                    data.extend(le32(if rng.chance(1, 2) { *f } else { j }));
                    data.extend((size as u32).to_le_bytes());
                    data.extend((off as u32).to_le_bytes());
                }
            }
            It::Body(i) => data.extend(&bodies[*i]),
            It::Gap(g) => data.extend(g),
        }
    }
    let sj = |s: &str| bytes_to_json(&string_to_sjis(s).unwrap());
    let text: Vec<Value> = recs
        .iter()
        .enumerate()
        .filter(|(j, _)| !((kind == "noname" || kind == "nameptr") && *j == victim))
        .map(|(j, f)| json!([info_addr + 16 * j, sj(&names[*f])]))
        .collect();
    let mut pairs: Vec<(usize, Value)> = Vec::new();
    let extra = rng.chance(1, 2);
    if extra {
        pairs.push((base, sj("Data")));
    }
    if kind != "nocount" {
        pairs.push((count_addr, sj("Count")));
    }
    if kind != "noinfo" {
        pairs.push((info_addr, sj("Info")));
    }
    if extra {
        for (j, f) in recs.iter().enumerate() {
            pairs.push((info_addr + 16 * j, sj(&names[*f])));
        }
    }
    pairs.sort_by_key(|p| p.0); // stable: per-address order kept
    let mut labels: Vec<(usize, Vec<Value>)> = Vec::new();
    for (a, nm) in pairs {
        match labels.last_mut() {
            Some((la, v)) if *la == a => v.push(nm),
            _ => labels.push((a, vec![nm])),
        }
    }
    let labels: Vec<Value> = labels.into_iter().map(|(a, v)| json!([a, v])).collect();
    let ptrs: Vec<Value> = if kind == "nameptr" && nameptr_listed { vec![json!([info_addr + 16 * victim, nameptr_target])] } else { vec![] };
    let content = json!({"endian": "le", "data": bytes_to_json(&data), "text": text, "ptrs": ptrs, "labels": labels, "cstr": []});
    (kind.to_string(), content)
}

fn arc_record(out_path: &str, runs: usize, max_files: usize, counts: &[usize]) {
    let mut rng = Rng::new(seed_from_env() ^ if cfg!(debug_assertions) { 0x5EED } else { 0 });
    let mut out = NdWriter::create(out_path);
    // the repository's own sample: content as parsed by BinArchive, result of arc::from_bytes on the file
    if let Ok(file) = std::fs::read(format!("{}/resources/test/ArcTest.arc", mila_dir())) {
        prime_with_damaged_copies(&file, &[], &|b| {
            let _ = BinArchive::from_bytes(b, Endian::Little);
        });
        match catch(|| BinArchive::from_bytes(&file, Endian::Little)) {
            Ok(Ok(a)) => out.put(&json!({"kind": "ok", "src": "ArcTest.arc", "content": masked_projection(&a, "le"), "result": arc_extract(&file)})),
            other => usage(&format!("cannot read ArcTest.arc as a bin archive: {:?}", other.map(|r| r.map(|_| ()).map_err(|e| e.to_string())))),
        }
    }
    // record counts around the powers of two where a narrower count type would wrap
    for n in counts {
        let names: Vec<String> = (0..*n).map(arc_rule_name).collect();
        let bodies: Vec<Vec<u8>> = (0..*n).map(arc_rule_body).collect();
        let (_, content) = arc_layout(&mut rng, &names, &bodies, false);
        let img = match build_image(&content) {
            Ok(img) => img,
            Err(e) => {
                out.put(&json!({"kind": "unbuildable", "src": "rule", "content": {"n": n}, "result": {"unbuildable": e}}));
                continue;
            }
        };
        if *n <= 1000 {
            // small enough for TLC to validate content and extraction in full
            if container_content(&img).as_ref() == Some(&content) {
                out.put(&json!({"kind": "ok", "src": "rule", "content": content, "result": arc_extract(&img)}));
            } else {
                out.put(&json!({"kind": "unbuildable", "src": "rule", "content": {"n": n}, "result": {"unbuildable": "container round trip differs (C01)"}}));
                continue;
            }
        }
        // The large images are not gated by mila's own container reader (an arc with 2^16 records that it cannot
        // read is a finding of this property); instead TLC checks the header totals of the image against the
        // content that was built.
        let n_strings = content["text"].as_array().unwrap().len();
        let n_labels: usize = content["labels"].as_array().unwrap().iter().map(|l| l[1].as_array().unwrap().len()).sum();
        // summary: number of entries and a sample of them, looked up by the rule's name
        prime_with_damaged_copies(&img, &[], &|b| {
            let _ = mila::arc::from_bytes(b);
        });
        let result = match catch(|| mila::arc::from_bytes(&img)) {
            Ok(Ok(m)) => {
                let mut idx: Vec<usize> = (0..*n).filter(|i| *i == 0 || i + 1 == *n || i % 4099 == 0 || [254usize, 255, 256, 257, 65534, 65535, 65536].contains(i)).collect();
                idx.dedup();
                let sample: Vec<Value> = idx
                    .iter()
                    .map(|i| {
                        let name = arc_rule_name(*i);
                        match m.get(&name) {
                            Some(b) => json!({"i": i, "name": name_json(&name), "found": true, "bytes": bytes_to_json(b)}),
                            None => json!({"i": i, "name": name_json(&name), "found": false, "bytes": []}),
                        }
                    })
                    .collect();
                json!({"ok": true, "count": m.len(), "sample": sample})
            }
            Ok(Err(e)) => json!({"ok": false, "count": 0, "sample": [], "err": format!("{:?}", e)}),
            Err(p) => json!({ "panic": p }),
        };
        out.put(&json!({"kind": "big", "src": "rule", "desc": {"n": n, "image_bytes": img.len(), "strings": n_strings, "labels": n_labels, "head": head32(&img)}, "result": result}));
    }
    for _ in 0..runs {
        let (kind, content) = arc_random_content(&mut rng, max_files);
        match build_image(&content) {
            Ok(img) => {
                if container_content(&img).as_ref() == Some(&content) {
                    out.put(&json!({"kind": kind, "src": "random", "content": content, "result": arc_extract(&img)}));
                } else {
                    out.put(&json!({"kind": "unbuildable", "src": "random", "content": content,
                                    "result": {"unbuildable": "BinArchive::from_bytes(serialize()) does not show the content that was built (C01)"}}));
                }
            }
            Err(e) => out.put(&json!({"kind": "unbuildable", "src": "random", "content": content, "result": {"unbuildable": e}})),
        }
    }
    out.finish();
}

/// directory of the mila sources the harness was built against (resources/test lives there)
fn mila_dir() -> String {
    std::env::var("VERIF_MILA").unwrap_or_else(|_| "/repo".to_string())
}

// ------------------------------------------------------------------------------------------------ C17 aset
fn aset_from_value(v: &Value) -> ASetFile {
    let mut a = ASetFile::new(json_to_opt(&v["meta"]));
    a.anim_clip_table = v["clips"].as_array().unwrap().iter().map(json_to_opt).collect();
    for s in v["sets"].as_array().unwrap() {
        let mut set = vec![json_to_opt(&s["label"])];
        set.extend(s["slots"].as_array().unwrap().iter().map(json_to_opt));
        a.sets.push(set);
    }
    a
}
fn aset_to_value(a: &ASetFile) -> Value {
    let sets: Vec<Value> = a
        .sets
        .iter()
        .map(|s| {
            if s.is_empty() {
                json!({"label": opt_none(), "slots": [], "bad_len": 0})
            } else {
                json!({"label": opt_to_json(&s[0]), "slots": s[1..].iter().map(opt_to_json).collect::<Vec<Value>>()})
            }
        })
        .collect();
    json!({"meta": opt_to_json(&a.meta), "clips": a.anim_clip_table.iter().map(opt_to_json).collect::<Vec<Value>>(), "sets": sets})
}

/// What mila does with one value: serialize, look at the image as an archive, re-read, re-serialize.
struct RoundTrip {
    status: String, // "ok" or the step that failed
    bytes: Vec<u8>,
    content: Value,
    reparsed: Value,
    re_same: bool,
}
fn empty_content() -> Value {
    json!({"endian": "le", "data": [], "text": [], "ptrs": [], "labels": [], "cstr": []})
}
fn round_trip<T>(
    serialize: impl Fn(&T) -> Result<Vec<u8>, String>,
    parse: impl Fn(&BinArchive) -> Result<T, String>,
    project: impl Fn(&T) -> Value,
    x: &T,
) -> RoundTrip {
    let mut r = RoundTrip { status: "ok".into(), bytes: vec![], content: empty_content(), reparsed: json!({"none": true}), re_same: false };
    let step = |r: &mut RoundTrip, name: &str, e: String| r.status = format!("{}: {}", name, e);
    let flat = |x: Result<Result<Vec<u8>, String>, String>| x.unwrap_or_else(|p| Err(format!("panic {}", p)));
    match flat(catch(|| serialize(x))) {
        Ok(b) => r.bytes = b,
        Err(e) => {
            step(&mut r, "serialize", e);
            return r;
        }
    }
    prime_with_damaged_copies(&r.bytes, &[], &|b| {
        if let Ok(a) = BinArchive::from_bytes(b, Endian::Little) {
            let _ = parse(&a);
        }
    });
    let archive = match catch(|| BinArchive::from_bytes(&r.bytes, Endian::Little)) {
        Ok(Ok(a)) => a,
        Ok(Err(e)) => {
            step(&mut r, "from_bytes", e.to_string());
            return r;
        }
        Err(p) => {
            step(&mut r, "from_bytes", format!("panic {}", p));
            return r;
        }
    };
    r.content = masked_projection(&archive, "le");
    let back = match catch(|| parse(&archive)) {
        Ok(Ok(y)) => y,
        Ok(Err(e)) => {
            step(&mut r, "from_archive", e);
            return r;
        }
        Err(p) => {
            step(&mut r, "from_archive", format!("panic {}", p));
            return r;
        }
    };
    r.reparsed = project(&back);
    match flat(catch(|| serialize(&back))) {
        Ok(b2) => r.re_same = b2 == r.bytes,
        Err(e) => step(&mut r, "reserialize", e),
    }
    r
}
fn aset_round_trip(a: &ASetFile) -> RoundTrip {
    round_trip(
        |x: &ASetFile| x.serialize().map_err(|e| e.to_string()),
        |ar| ASetFile::from_archive(ar).map_err(|e| e.to_string()),
        aset_to_value,
        a,
    )
}

/// Compare one round trip with a generated case {value|expect, content, image}; returns mismatch descriptions.
fn compare_round_trip(r: &RoundTrip, expect_value: &Value, c: &Value) -> Vec<(String, Value)> {
    let mut m = Vec::new();
    if r.status != "ok" {
        m.push(("status".to_string(), json!(r.status)));
        return m;
    }
    if r.content != c["content"] {
        m.push(("content".to_string(), first_difference(&r.content, &c["content"])));
    }
    let image = c["image"].as_array().unwrap();
    if !image.is_empty() && bytes_to_json(&r.bytes) != c["image"] {
        m.push(("image".to_string(), json!({"got_len": r.bytes.len(), "expected_len": image.len(), "got": bytes_to_json(&r.bytes)})));
    }
    if &r.reparsed != expect_value {
        m.push(("reparse".to_string(), first_difference(&r.reparsed, expect_value)));
    }
    if !r.re_same {
        m.push(("reserialize".to_string(), json!("second serialization differs from the first")));
    }
    m
}
/// small description of where two JSON values differ (for the violation signature only)
fn first_difference(got: &Value, exp: &Value) -> Value {
    fn walk(path: String, g: &Value, e: &Value) -> Option<Value> {
        match (g, e) {
            (Value::Object(a), Value::Object(b)) => {
                for (k, bv) in b {
                    match a.get(k) {
                        Some(av) => {
                            if let Some(d) = walk(format!("{}.{}", path, k), av, bv) {
                                return Some(d);
                            }
                        }
                        None => return Some(json!({"at": format!("{}.{}", path, k), "got": "missing", "expected": bv})),
                    }
                }
                for k in a.keys() {
                    if !b.contains_key(k) {
                        return Some(json!({"at": format!("{}.{}", path, k), "got": a[k], "expected": "missing"}));
                    }
                }
                None
            }
            (Value::Array(a), Value::Array(b)) => {
                let scalar = a.iter().chain(b.iter()).all(|x| !x.is_array() && !x.is_object());
                if scalar {
                    if a != b {
                        let i = a.iter().zip(b.iter()).position(|(x, y)| x != y).unwrap_or(a.len().min(b.len()));
                        let lo = i.saturating_sub(4);
                        return Some(json!({"at": format!("{}[{}]", path, i), "got_len": a.len(), "expected_len": b.len(),
                            "got": a[lo..(i + 8).min(a.len())], "expected": b[lo..(i + 8).min(b.len())]}));
                    }
                    return None;
                }
                for (i, (x, y)) in a.iter().zip(b.iter()).enumerate() {
                    if let Some(d) = walk(format!("{}[{}]", path, i), x, y) {
                        return Some(d);
                    }
                }
                if a.len() != b.len() {
                    return Some(json!({"at": path, "got_len": a.len(), "expected_len": b.len()}));
                }
                None
            }
            _ => {
                if g != e {
                    Some(json!({"at": path, "got": g, "expected": e}))
                } else {
                    None
                }
            }
        }
    }
    walk(String::new(), got, exp).unwrap_or(json!("equal"))
}

fn aset_replay(cases_path: &str, out_path: &str) {
    let cases = read_ndjson(cases_path);
    let mut out = NdWriter::create(out_path);
    let (mut n, mut bad) = (0u64, 0u64);
    for (i, c) in cases.iter().enumerate() {
        n += 1;
        let a = aset_from_value(&c["value"]);
        let r = aset_round_trip(&a);
        for (what, got) in compare_round_trip(&r, &c["value"], c) {
            bad += 1;
            out.put(&json!({"kind": "mismatch", "what": what, "i": i, "got": got}));
        }
    }
    out.put(&json!({"kind": "summary", "cases": n, "mismatches": bad, "unbuildable": 0}));
    out.finish();
}

fn random_opt(rng: &mut Rng, present: bool) -> Option<String> {
    if present {
        Some(random_name(rng, 7, true))
    } else {
        None
    }
}
fn event_of(r: &RoundTrip, src: &str, value: Value, byte_limit: usize, text_limit: usize) -> Value {
    let small = r.bytes.len() <= byte_limit && r.content["text"].as_array().map(|t| t.len() <= text_limit).unwrap_or(false);
    json!({"src": src, "status": r.status, "value": value, "content": r.content,
           "bytes": if small { bytes_to_json(&r.bytes) } else { json!([]) },
           "reparsed": r.reparsed, "re_same": r.re_same})
}
/// images with at most this many strings are also compared byte for byte with BinFormat!Canon by TLC
/// (Canon is cubic in the number of strings); same constant as ImageLimit in spec/MC_ASet.tla
const IMAGE_TEXT_LIMIT: usize = 48;

/// first 32 bytes of an image (the container header) for the rule-built large values
fn head32(bytes: &[u8]) -> Value {
    bytes_to_json(&bytes[..32.min(bytes.len())])
}
/// A large value built by rule: n_sets sets, each with its first `slots` slots present (names from a small pool),
/// labelled "L<i>" or not; meta present, clip table empty.  Too large to travel as JSON: the event carries the
/// rule, the header of the image and the round-trip flags; spec/ASet.tla (BigTotals) decides the header totals.
fn aset_big_event(n_sets: usize, slots: usize, labelled: bool) -> Value {
    let rule = json!({"n_sets": n_sets, "slots": slots, "labelled": labelled, "meta": true, "clips": 0});
    let r = catch(|| -> Result<Value, String> {
        let mut a = ASetFile::new(Some("rule".to_string()));
        a.anim_clip_table = vec![None; 257];
        for i in 0..n_sets {
            let mut set: Vec<Option<String>> = vec![None; 257];
            if labelled {
                set[0] = Some(format!("L{}", i));
            }
            for k in 1..=slots {
                set[k] = Some(format!("s{}", (i * 7 + k) % 300));
            }
            a.sets.push(set);
        }
        let bytes = a.serialize().map_err(|e| format!("serialize: {}", e))?;
        prime_with_damaged_copies(&bytes, &[], &|b| {
            let _ = BinArchive::from_bytes(b, Endian::Little);
        });
        let ar = BinArchive::from_bytes(&bytes, Endian::Little).map_err(|e| format!("from_bytes: {}", e))?;
        let b = ASetFile::from_archive(&ar).map_err(|e| format!("from_archive: {}", e))?;
        let equal = b.meta == a.meta && b.anim_clip_table == a.anim_clip_table && b.sets == a.sets;
        let again = b.serialize().map(|x| x == bytes).map_err(|e| format!("reserialize: {}", e))?;
        Ok(json!({"src": "rule", "status": "ok", "rule": rule, "len": bytes.len(), "head": head32(&bytes), "reparsed_equal": equal, "re_same": again}))
    });
    match r {
        Ok(Ok(v)) => v,
        Ok(Err(e)) => json!({"src": "rule", "status": e, "rule": rule, "len": 0, "head": [], "reparsed_equal": false, "re_same": false}),
        Err(p) => json!({"src": "rule", "status": format!("panic {}", p), "rule": rule, "len": 0, "head": [], "reparsed_equal": false, "re_same": false}),
    }
}

fn aset_record(out_path: &str, runs: usize, max_sets: usize, big: bool) {
    let mut rng = Rng::new(seed_from_env());
    let mut out = NdWriter::create(out_path);
    if big {
        out.put(&aset_big_event(330, 200, true)); // 66 000 string cells: pointer table crosses 2^16
        out.put(&aset_big_event(65_600, 0, true)); // 65 601 labels: label table crosses 2^16
        out.put(&aset_big_event(300, 1, false)); // control well below the boundaries
    }
    // the repository's sample file: value = what mila reads from it
    if let Ok(file) = std::fs::read(format!("{}/resources/test/FE14Aset_Test.bin", mila_dir())) {
        prime_with_damaged_copies(&file, &[], &|b| {
            let _ = BinArchive::from_bytes(b, Endian::Little).map(|ar| ASetFile::from_archive(&ar).map(|_| ()));
        });
        let parsed = catch(|| BinArchive::from_bytes(&file, Endian::Little).map_err(|e| e.to_string()).and_then(|ar| ASetFile::from_archive(&ar).map_err(|e| e.to_string())));
        match parsed {
            Ok(Ok(a)) => {
                let mut r = aset_round_trip(&a);
                if r.status == "ok" && r.bytes != file {
                    r.status = "serialize: image differs from the file it was read from".into();
                }
                out.put(&event_of(&r, "FE14Aset_Test.bin", aset_to_value(&a), 0, 0));
            }
            other => usage(&format!("cannot read FE14Aset_Test.bin: {:?}", other.map(|r| r.map(|_| ())))),
        }
    }
    for run in 0..runs {
        let nsets = match run {
            0 => 0,
            1 => max_sets,
            _ => if rng.chance(1, 6) { rng.range(0, max_sets) } else { rng.range(0, 4.min(max_sets)) },
        };
        let mut a = ASetFile::new(random_opt(&mut rng, true).filter(|_| rng.chance(3, 4)));
        // every third value is kept small (few strings) so that its image is also checked byte for byte
        let small = run % 3 == 2;
        let clip_density = if small { 0 } else { *rng.pick(&[0usize, 1, 8, 16, 16]) };
        let nsets = if small { nsets.min(3) } else { nsets };
        a.anim_clip_table = (0..257).map(|_| { let p = rng.below(16) < clip_density; random_opt(&mut rng, p) }).collect();
        for _ in 0..nsets {
            let labelled = rng.chance(2, 3);
            let mut set = vec![random_opt(&mut rng, labelled)];
            // per group density: empty, single bit, sparse, half, full
            for _g in 0..8 {
                let d = if small { rng.below(2) } else { rng.below(6) };
                let single = rng.below(32);
                for b in 0..32 {
                    let p = match d {
                        0 => false,
                        1 => b == single,
                        2 => rng.chance(1, 8),
                        3 | 4 => rng.chance(1, 2),
                        _ => true,
                    };
                    set.push(random_opt(&mut rng, p));
                }
            }
            a.sets.push(set);
        }
        let r = aset_round_trip(&a);
        out.put(&event_of(&r, "random", aset_to_value(&a), 8000, IMAGE_TEXT_LIMIT));
    }
    out.finish();
}

// ------------------------------------------------------------------------------------------------ C18 asset binary
fn b4(v: &Value) -> [u8; 4] {
    let b = json_to_bytes(v);
    [b[0], b[1], b[2], b[3]]
}
/// The struct fields by name; which bit / position / width each has is decided by spec/AssetBinary.tla only.
macro_rules! asset_str_fields {
    ($m:ident) => {
        $m!(conditional1, conditional2, body_model, body_texture, head_model, head_texture, hair_model, hair_texture,
            outer_clothing_model, outer_clothing_texture, underwear_model, underwear_texture, mount_model, mount_texture,
            mount_outer_clothing_model, mount_outer_clothing_texture, weapon_model_dual, weapon_model, skeleton,
            mount_skeleton, accessory1_model, accessory1_texture, accessory2_model, accessory2_texture, accessory3_model,
            accessory3_texture, attack_animation, attack_animation2, visual_effect, hid, footstep_sound, clothing_sound, voice)
    };
}
macro_rules! asset_color_fields {
    ($m:ident) => {
        $m!((hair_color, use_hair_color), (skin_color, use_skin_color), (weapon_trail_color, use_weapon_trail_color), (bitflags, use_bitflags))
    };
}
macro_rules! asset_f32_fields {
    ($m:ident) => {
        $m!((model_size, use_model_size), (head_size, use_head_size), (pupil_y, use_pupil_y))
    };
}
macro_rules! asset_u32_fields {
    ($m:ident) => {
        $m!((unk3, use_unk3), (unk4, use_unk4), (unk5, use_unk5), (unk6, use_unk6), (unk7, use_unk7), (unk8, use_unk8),
            (unk9, use_unk9), (unk10, use_unk10), (unk11, use_unk11), (unk12, use_unk12), (unk13, use_unk13))
    };
}
fn typed_json(present: bool, be: [u8; 4]) -> Value {
    // an absent field has no representation in the file: its value is projected as zero
    json!({"some": present, "v": if present { bytes_to_json(&be) } else { json!([0, 0, 0, 0]) }})
}
/// raw = true keeps the value of absent typed fields (the input of a run), false = projection of a result
fn asset_spec_to_json(s: &AssetSpec, raw: bool) -> Value {
    let mut f = serde_json::Map::new();
    let typed = |present: bool, be: [u8; 4]| if raw { json!({"some": present, "v": bytes_to_json(&be)}) } else { typed_json(present, be) };
    macro_rules! st { ($($n:ident),*) => { $( f.insert(stringify!($n).to_string(), opt_to_json(&s.$n)); )* } }
    macro_rules! co { ($(($n:ident, $u:ident)),*) => { $( f.insert(stringify!($n).to_string(), typed(s.$u, s.$n)); )* } }
    macro_rules! fl { ($(($n:ident, $u:ident)),*) => { $( f.insert(stringify!($n).to_string(), typed(s.$u, s.$n.to_bits().to_be_bytes())); )* } }
    macro_rules! un { ($(($n:ident, $u:ident)),*) => { $( f.insert(stringify!($n).to_string(), typed(s.$u, s.$n.to_be_bytes())); )* } }
    asset_str_fields!(st);
    asset_color_fields!(co);
    asset_f32_fields!(fl);
    asset_u32_fields!(un);
    json!({"name": opt_to_json(&s.name), "f": Value::Object(f)})
}
fn asset_spec_from_json(v: &Value) -> Result<AssetSpec, String> {
    let f = v["f"].as_object().ok_or("spec.f is not an object")?;
    let mut s = AssetSpec::new();
    s.name = json_to_opt(&v["name"]);
    let mut used = 0usize;
    let mut get = |n: &str| -> Result<&Value, String> {
        used += 1;
        f.get(n).ok_or(format!("field {} missing in the generated spec", n))
    };
    macro_rules! st { ($($n:ident),*) => { $( s.$n = json_to_opt(get(stringify!($n))?); )* } }
    macro_rules! co { ($(($n:ident, $u:ident)),*) => { $( { let x = get(stringify!($n))?; s.$n = b4(&x["v"]); s.$u = x["some"].as_bool().unwrap(); } )* } }
    macro_rules! fl { ($(($n:ident, $u:ident)),*) => { $( { let x = get(stringify!($n))?; s.$n = f32::from_bits(u32::from_be_bytes(b4(&x["v"]))); s.$u = x["some"].as_bool().unwrap(); } )* } }
    macro_rules! un { ($(($n:ident, $u:ident)),*) => { $( { let x = get(stringify!($n))?; s.$n = u32::from_be_bytes(b4(&x["v"])); s.$u = x["some"].as_bool().unwrap(); } )* } }
    asset_str_fields!(st);
    asset_color_fields!(co);
    asset_f32_fields!(fl);
    asset_u32_fields!(un);
    if used != f.len() {
        return Err(format!("the specification's field table has {} fields, the harness knows {}", f.len(), used));
    }
    Ok(s)
}
fn asset_from_value(v: &Value) -> Result<AssetBinary, String> {
    let mut a = AssetBinary::new();
    a.flags = u32::from_be_bytes(b4(&v["flags"]));
    for s in v["specs"].as_array().unwrap() {
        a.specs.push(asset_spec_from_json(s)?);
    }
    Ok(a)
}
fn asset_to_value(a: &AssetBinary, raw: bool) -> Value {
    json!({"flags": bytes_to_json(&a.flags.to_be_bytes()), "specs": a.specs.iter().map(|s| asset_spec_to_json(s, raw)).collect::<Vec<Value>>()})
}
fn asset_round_trip(a: &AssetBinary) -> RoundTrip {
    round_trip(
        |x: &AssetBinary| x.serialize().map_err(|e| e.to_string()),
        |ar| AssetBinary::from_archive(ar).map_err(|e| e.to_string()),
        |x| asset_to_value(x, false),
        a,
    )
}

fn asset_replay(cases_path: &str, out_path: &str) {
    let cases = read_ndjson(cases_path);
    let mut out = NdWriter::create(out_path);
    let (mut n, mut bad, mut unbuildable) = (0u64, 0u64, 0u64);
    for (i, c) in cases.iter().enumerate() {
        n += 1;
        let a = match asset_from_value(&c["value"]) {
            Ok(a) => a,
            Err(e) => {
                unbuildable += 1;
                out.put(&json!({"kind": "unbuildable", "i": i, "why": e}));
                continue;
            }
        };
        if asset_to_value(&a, true) != c["value"] {
            unbuildable += 1;
            out.put(&json!({"kind": "unbuildable", "i": i, "why": "value does not read back from the constructed AssetBinary"}));
            continue;
        }
        let r = asset_round_trip(&a);
        for (what, got) in compare_round_trip(&r, &c["expect"], c) {
            bad += 1;
            out.put(&json!({"kind": "mismatch", "what": what, "i": i, "got": got}));
        }
    }
    out.put(&json!({"kind": "summary", "cases": n, "mismatches": bad, "unbuildable": unbuildable}));
    out.finish();
}

fn asset_random_spec(rng: &mut Rng) -> AssetSpec {
    let mut s = AssetSpec::new();
    let density = *rng.pick(&[0usize, 1, 2, 8, 14, 16]);
    let named = rng.chance(9, 10);
    s.name = random_opt(rng, named);
    macro_rules! st { ($($n:ident),*) => { $( { let p = rng.below(16) < density; s.$n = random_opt(rng, p); } )* } }
    // typed fields get random bits whether present or not (absent: don't-care junk half of the time)
    macro_rules! co { ($(($n:ident, $u:ident)),*) => { $( { s.$u = rng.below(16) < density; if s.$u || rng.chance(1, 2) { let b = rng.bytes(4); s.$n = [b[0], b[1], b[2], b[3]]; } } )* } }
    macro_rules! fl { ($(($n:ident, $u:ident)),*) => { $( { s.$u = rng.below(16) < density; if s.$u || rng.chance(1, 2) {
        let bits = match rng.below(4) { 0 => 0x7FC0_0000u32 | (rng.next() as u32 & 0x3F_FFFF), 1 => 0xFF80_0000u32 | (rng.next() as u32 & 0x7F_FFFF) | 1, _ => rng.next() as u32 };
        s.$n = f32::from_bits(bits); } } )* } }
    macro_rules! un { ($(($n:ident, $u:ident)),*) => { $( { s.$u = rng.below(16) < density; if s.$u || rng.chance(1, 2) { s.$n = rng.next() as u32; } } )* } }
    asset_str_fields!(st);
    asset_color_fields!(co);
    asset_f32_fields!(fl);
    asset_u32_fields!(un);
    s
}
/// A large asset binary built by rule: n_specs specs, each with a name and every optional STRING field present
/// (values from a small pool), no typed field.  The event carries the rule (incl. the names of the present
/// fields), the image header and the round-trip flags; spec/AssetBinary.tla (BigTotals) decides the totals.
fn asset_big_event(n_specs: usize) -> Value {
    let mut present: Vec<String> = Vec::new();
    macro_rules! names { ($($n:ident),*) => { $( present.push(stringify!($n).to_string()); )* } }
    asset_str_fields!(names);
    let rule = json!({"n_specs": n_specs, "present": present, "named": true});
    let r = catch(|| -> Result<Value, String> {
        let mut a = AssetBinary::new();
        a.flags = 0x0102_0304;
        for i in 0..n_specs {
            let mut sp = AssetSpec::new();
            sp.name = Some(format!("n{}", i % 500));
            let mut k = 0usize;
            macro_rules! st { ($($n:ident),*) => { $( { k += 1; sp.$n = Some(format!("v{}", (i + k) % 400)); } )* } }
            asset_str_fields!(st);
            a.specs.push(sp);
        }
        let bytes = a.serialize().map_err(|e| format!("serialize: {}", e))?;
        prime_with_damaged_copies(&bytes, &[], &|b| {
            let _ = BinArchive::from_bytes(b, Endian::Little);
        });
        let ar = BinArchive::from_bytes(&bytes, Endian::Little).map_err(|e| format!("from_bytes: {}", e))?;
        let b = AssetBinary::from_archive(&ar).map_err(|e| format!("from_archive: {}", e))?;
        let equal = b.flags == a.flags && b.specs.len() == a.specs.len()
            && a.specs.iter().zip(b.specs.iter()).all(|(x, y)| asset_spec_to_json(x, false) == asset_spec_to_json(y, false));
        let again = b.serialize().map(|x| x == bytes).map_err(|e| format!("reserialize: {}", e))?;
        Ok(json!({"src": "rule", "status": "ok", "rule": rule, "len": bytes.len(), "head": head32(&bytes), "reparsed_equal": equal, "re_same": again}))
    });
    match r {
        Ok(Ok(v)) => v,
        Ok(Err(e)) => json!({"src": "rule", "status": e, "rule": rule, "len": 0, "head": [], "reparsed_equal": false, "re_same": false}),
        Err(p) => json!({"src": "rule", "status": format!("panic {}", p), "rule": rule, "len": 0, "head": [], "reparsed_equal": false, "re_same": false}),
    }
}

fn asset_record(out_path: &str, runs: usize, max_specs: usize, big: bool) {
    let mut rng = Rng::new(seed_from_env());
    let mut out = NdWriter::create(out_path);
    if big {
        out.put(&asset_big_event(1_930)); // 1 930 x 34 = 65 620 string cells: pointer table crosses 2^16
        out.put(&asset_big_event(100)); // control
    }
    if let Ok(file) = std::fs::read(format!("{}/resources/test/AssetBinary_Test.bin", mila_dir())) {
        prime_with_damaged_copies(&file, &[], &|b| {
            let _ = BinArchive::from_bytes(b, Endian::Little).map(|ar| AssetBinary::from_archive(&ar).map(|_| ()));
        });
        let parsed = catch(|| BinArchive::from_bytes(&file, Endian::Little).map_err(|e| e.to_string()).and_then(|ar| AssetBinary::from_archive(&ar).map_err(|e| e.to_string())));
        match parsed {
            Ok(Ok(a)) => {
                let mut r = asset_round_trip(&a);
                if r.status == "ok" && r.bytes != file {
                    r.status = "serialize: image differs from the file it was read from".into();
                }
                out.put(&event_of(&r, "AssetBinary_Test.bin", asset_to_value(&a, true), 0, 0));
            }
            other => usage(&format!("cannot read AssetBinary_Test.bin: {:?}", other.map(|r| r.map(|_| ())))),
        }
    }
    for run in 0..runs {
        let n = match run {
            0 => 0,
            _ => rng.range(0, max_specs),
        };
        let mut a = AssetBinary::new();
        a.flags = if rng.chance(1, 3) { 0 } else { rng.next() as u32 };
        for _ in 0..n {
            a.specs.push(asset_random_spec(&mut rng));
        }
        let r = asset_round_trip(&a);
        out.put(&event_of(&r, "random", asset_to_value(&a, true), 4000, IMAGE_TEXT_LIMIT));
    }
    out.finish();
}

// ------------------------------------------------------------------------------------------------ main
fn main() {
    install_panic_hook();
    let args: Vec<String> = std::env::args().skip(1).collect();
    let a: Vec<&str> = args.iter().map(|s| s.as_str()).collect();
    match a.as_slice() {
        ["pack-replay", cases, out] => pack_replay(cases, out, &format!("{}.events", out)),
        ["pack-replay", cases, out, events] => pack_replay(cases, out, events),
        ["pack-record", out, runs, max_files, flags @ ..] if flags.iter().all(|f| ["big", "bounds", "edge", "edge-full", "bytes"].contains(f)) => {
            pack_record(out, runs.parse().unwrap(), max_files.parse().unwrap(), flags)
        }
        ["arc-replay", cases, out] => arc_replay(cases, out),
        ["arc-record", out, runs, max_files, counts @ ..] => {
            let counts: Vec<usize> = counts.iter().map(|c| c.parse().unwrap_or_else(|_| usage("arc-record: counts are numbers"))).collect();
            arc_record(out, runs.parse().unwrap(), max_files.parse().unwrap(), &counts)
        }
        ["aset-replay", cases, out] => aset_replay(cases, out),
        ["aset-record", out, runs, max_sets] => aset_record(out, runs.parse().unwrap(), max_sets.parse().unwrap(), false),
        ["aset-record", out, runs, max_sets, "big"] => aset_record(out, runs.parse().unwrap(), max_sets.parse().unwrap(), true),
        ["asset-replay", cases, out] => asset_replay(cases, out),
        ["asset-record", out, runs, max_specs] => asset_record(out, runs.parse().unwrap(), max_specs.parse().unwrap(), false),
        ["asset-record", out, runs, max_specs, "big"] => asset_record(out, runs.parse().unwrap(), max_specs.parse().unwrap(), true),
        _ => usage(
            "mvh_cont <pack|arc|aset|asset>-replay <cases> <out> | pack-record <out> <runs> <max_files> [bounds] [big] | \
             arc-record <out> <runs> <max_files> [record counts...] | aset-record <out> <runs> <max_sets> [big] | asset-record <out> <runs> <max_specs> [big]",
        ),
    }
}
