//! Archive content <-> JSON projection shared by all bin-archive based subsystems.
//!
//! content = {"endian":"le"|"be", "data":[u8], "text":[[addr,[sjis bytes]]], "ptrs":[[addr,target]],
//!            "labels":[[addr,[[name bytes],...]]], "cstr":[[addr,[sjis bytes]]]}
//! every list sorted by address; strings are Shift-JIS byte sequences (the codec is trusted base).
//! Only the public API of BinArchive is used.
#![allow(dead_code)]
use crate::util::*;
use mila::{BinArchive, Endian};
use serde_json::{json, Value};

pub fn endian_of(v: &Value) -> Endian {
    match v.as_str() {
        Some("be") => Endian::Big,
        _ => Endian::Little,
    }
}
pub fn endian_name(e: Endian) -> &'static str {
    match e {
        Endian::Big => "be",
        Endian::Little => "le",
    }
}

fn sj(s: &str) -> Value {
    match string_to_sjis(s) {
        Some(b) => bytes_to_json(&b),
        None => json!({"unencodable": s}),
    }
}

/// Projection of everything the public API shows (pending c-strings are not visible: "cstr" = []).
/// Strings and pointers are looked up at *every* address, not only aligned ones, so that an annotation
/// that drifted to an unaligned key is seen.
pub fn project(a: &BinArchive, endian: &str) -> Value {
    let size = a.size();
    let data: Vec<u8> = if size > 0 { a.read_bytes(0, size).map(|b| b.to_vec()).unwrap_or_default() } else { vec![] };
    let mut text = Vec::new();
    let mut ptrs = Vec::new();
    if size >= 4 {
        for addr in 0..=(size - 4) {
            if let Ok(Some(s)) = a.read_string(addr) {
                text.push(json!([addr, sj(&s)]));
            }
            if let Ok(Some(p)) = a.read_pointer(addr) {
                ptrs.push(json!([addr, p]));
            }
        }
    }
    let mut labels: Vec<(usize, Vec<Value>)> = Vec::new();
    for (addr, name) in a.all_labels() {
        match labels.last_mut() {
            Some((la, names)) if *la == addr => names.push(sj(&name)),
            _ => labels.push((addr, vec![sj(&name)])),
        }
    }
    let labels: Vec<Value> = labels.into_iter().map(|(a, n)| json!([a, n])).collect();
    json!({"endian": endian, "data": data, "text": text, "ptrs": ptrs, "labels": labels, "cstr": []})
}

/// Projection including pending c-strings, which are only observable through serialize -> from_bytes:
/// a cell that re-parses as a pointer into the appended pool [size, ..) is a pending c-string.
/// Returns Err(description) if the round trip itself fails.
pub fn project_with_cstr(a: &BinArchive, endian: &str) -> Result<Value, String> {
    let mut p = project(a, endian);
    let bytes = a.serialize().map_err(|e| format!("serialize: {}", e))?;
    let b = BinArchive::from_bytes(&bytes, endian_of(&json!(endian))).map_err(|e| format!("from_bytes: {}", e))?;
    let size = a.size();
    let mut cstr = Vec::new();
    if b.size() > size && size >= 4 {
        for addr in 0..=(size - 4) {
            if a.read_pointer(addr).ok().flatten().is_some() {
                continue; // an explicit pointer of the original archive
            }
            if let Ok(Some(t)) = b.read_pointer(addr) {
                if t >= size {
                    match b.read_c_string(addr) {
                        Ok(Some(s)) => cstr.push(json!([addr, sj(&s)])),
                        other => cstr.push(json!([addr, {"unreadable": format!("{:?}", other.map_err(|e| e.to_string()))}])),
                    }
                }
            }
        }
    }
    p["cstr"] = Value::Array(cstr);
    Ok(p)
}


/// Full observable state: public API plus the pending c-strings through the cfg(mila_verif) hook
/// `BinArchive::verif_pending_c_strings` (add-only hook in /repo, see MANIFEST.hooks).
pub fn project_full(a: &BinArchive, endian: &str) -> Value {
    let mut p = project(a, endian);
    let cstr: Vec<Value> = a.verif_pending_c_strings().iter().map(|(addr, s)| json!([addr, sj(s)])).collect();
    p["cstr"] = Value::Array(cstr);
    p
}

/// One construction step of an archive (used to vary call order).
#[derive(Clone, Debug)]
pub enum Step {
    Text(usize, String),
    Ptr(usize, usize),
    Label(usize, String),
    CStr(usize, String),
}

pub fn steps_of(content: &Value) -> Vec<Step> {
    let mut steps = Vec::new();
    for t in content["text"].as_array().unwrap() {
        steps.push(Step::Text(t[0].as_u64().unwrap() as usize, sjis_to_string(&json_to_bytes(&t[1]))));
    }
    for p in content["ptrs"].as_array().unwrap() {
        steps.push(Step::Ptr(p[0].as_u64().unwrap() as usize, p[1].as_u64().unwrap() as usize));
    }
    for l in content["labels"].as_array().unwrap() {
        for name in l[1].as_array().unwrap() {
            steps.push(Step::Label(l[0].as_u64().unwrap() as usize, sjis_to_string(&json_to_bytes(name))));
        }
    }
    if let Some(cs) = content["cstr"].as_array() {
        for c in cs {
            steps.push(Step::CStr(c[0].as_u64().unwrap() as usize, sjis_to_string(&json_to_bytes(&c[1]))));
        }
    }
    steps
}

/// Shuffle steps but keep the relative order of labels that share an address (per-address order is content).
pub fn shuffle_steps(steps: &mut Vec<Step>, rng: &mut Rng) {
    let n = steps.len();
    let mut order: Vec<usize> = (0..n).collect();
    rng.shuffle(&mut order);
    // stable fix-up: labels of one address must keep original relative order
    let mut out: Vec<Step> = order.iter().map(|&i| steps[i].clone()).collect();
    // collect per address the original sequence of names, then rewrite label slots of that address in order
    use std::collections::HashMap;
    let mut per: HashMap<usize, Vec<String>> = HashMap::new();
    for s in steps.iter() {
        if let Step::Label(a, n) = s {
            per.entry(*a).or_default().push(n.clone());
        }
    }
    let mut idx: HashMap<usize, usize> = HashMap::new();
    for s in out.iter_mut() {
        if let Step::Label(a, n) = s {
            let i = idx.entry(*a).or_insert(0);
            *n = per[a][*i].clone();
            *i += 1;
        }
    }
    *steps = out;
}

pub fn apply_step(a: &mut BinArchive, s: &Step) -> Result<(), String> {
    match s {
        Step::Text(addr, t) => a.write_string(*addr, Some(t)).map_err(|e| e.to_string()),
        Step::Ptr(addr, t) => a.write_pointer(*addr, Some(*t)).map_err(|e| e.to_string()),
        Step::Label(addr, n) => a.write_label(*addr, n).map_err(|e| e.to_string()),
        Step::CStr(addr, t) => a.write_c_string(*addr, t.clone()).map_err(|e| e.to_string()),
    }
}

/// Build an archive with the given content through the public API (data first, then annotations in the
/// given step order).
pub fn build_with(content: &Value, steps: &[Step]) -> Result<BinArchive, String> {
    let mut a = BinArchive::new(endian_of(&content["endian"]));
    let data = json_to_bytes(&content["data"]);
    a.allocate_at_end(data.len());
    if !data.is_empty() {
        a.write_bytes(0, &data).map_err(|e| e.to_string())?;
    }
    for s in steps {
        apply_step(&mut a, s)?;
    }
    Ok(a)
}

pub fn build(content: &Value) -> Result<BinArchive, String> {
    build_with(content, &steps_of(content))
}
