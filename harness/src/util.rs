//! Shared helpers: deterministic PRNG, panic capture, ndjson I/O, string <-> code sequence conversions.
#![allow(dead_code)]
use serde_json::Value;
use std::cell::RefCell;
use std::io::{BufRead, BufReader, BufWriter, Write};
use std::panic::{self, AssertUnwindSafe};

pub struct Rng(pub u64);
impl Rng {
    pub fn new(seed: u64) -> Self {
        Rng(seed.wrapping_mul(0x9E3779B97F4A7C15).wrapping_add(0xD1B54A32D192ED03))
    }
    pub fn next(&mut self) -> u64 {
        // splitmix64
        self.0 = self.0.wrapping_add(0x9E3779B97F4A7C15);
        let mut z = self.0;
        z = (z ^ (z >> 30)).wrapping_mul(0xBF58476D1CE4E5B9);
        z = (z ^ (z >> 27)).wrapping_mul(0x94D049BB133111EB);
        z ^ (z >> 31)
    }
    pub fn below(&mut self, n: usize) -> usize {
        if n == 0 { 0 } else { (self.next() % (n as u64)) as usize }
    }
    pub fn range(&mut self, lo: usize, hi_incl: usize) -> usize {
        lo + self.below(hi_incl - lo + 1)
    }
    pub fn chance(&mut self, num: usize, den: usize) -> bool {
        self.below(den) < num
    }
    pub fn pick<'a, T>(&mut self, xs: &'a [T]) -> &'a T {
        &xs[self.below(xs.len())]
    }
    pub fn bytes(&mut self, n: usize) -> Vec<u8> {
        (0..n).map(|_| self.next() as u8).collect()
    }
    pub fn shuffle<T>(&mut self, xs: &mut [T]) {
        for i in (1..xs.len()).rev() {
            let j = self.below(i + 1);
            xs.swap(i, j);
        }
    }
}

thread_local! {
    static LAST_PANIC: RefCell<String> = RefCell::new(String::new());
}

pub fn install_panic_hook() {
    panic::set_hook(Box::new(|info| {
        let loc = info
            .location()
            .map(|l| format!("{}:{}", l.file(), l.line()))
            .unwrap_or_else(|| "?".to_string());
        let msg = if let Some(s) = info.payload().downcast_ref::<&str>() {
            s.to_string()
        } else if let Some(s) = info.payload().downcast_ref::<String>() {
            s.clone()
        } else {
            String::new()
        };
        LAST_PANIC.with(|p| *p.borrow_mut() = format!("{} [{}]", loc, msg));
    }));
}

/// Run f; a panic is data: Err("file:line [message]").
pub fn catch<T>(f: impl FnOnce() -> T) -> Result<T, String> {
    match panic::catch_unwind(AssertUnwindSafe(f)) {
        Ok(v) => Ok(v),
        Err(_) => Err(LAST_PANIC.with(|p| p.borrow().clone())),
    }
}

pub fn seed_from_env() -> u64 {
    std::env::var("VERIF_SEED").ok().and_then(|s| s.parse().ok()).unwrap_or(1)
}
pub fn tier_is_quick() -> bool {
    std::env::var("VERIF_TIER").map(|t| t != "thorough").unwrap_or(true)
}

pub fn read_ndjson(path: &str) -> Vec<Value> {
    let f = std::fs::File::open(path).unwrap_or_else(|e| {
        eprintln!("cannot open {}: {}", path, e);
        std::process::exit(2)
    });
    let mut out = Vec::new();
    for line in BufReader::new(f).lines() {
        let line = line.unwrap();
        let line = line.trim();
        if line.is_empty() {
            continue;
        }
        out.push(serde_json::from_str(line).unwrap_or_else(|e| {
            eprintln!("bad json line in {}: {}", path, e);
            std::process::exit(2)
        }));
    }
    out
}

pub struct NdWriter(BufWriter<std::fs::File>);
impl NdWriter {
    pub fn create(path: &str) -> Self {
        NdWriter(BufWriter::new(std::fs::File::create(path).unwrap_or_else(|e| {
            eprintln!("cannot create {}: {}", path, e);
            std::process::exit(2)
        })))
    }
    pub fn put(&mut self, v: &Value) {
        serde_json::to_writer(&mut self.0, v).unwrap();
        self.0.write_all(b"\n").unwrap();
    }
    pub fn finish(mut self) {
        self.0.flush().unwrap();
    }
}

// ---- text conversions ------------------------------------------------------
/// String -> sequence of Unicode scalar values
pub fn str_to_codes(s: &str) -> Value {
    Value::Array(s.chars().map(|c| Value::from(c as u32)).collect())
}
pub fn codes_to_string(v: &Value) -> String {
    v.as_array()
        .expect("codes array")
        .iter()
        .map(|c| char::from_u32(c.as_u64().unwrap() as u32).unwrap())
        .collect()
}
pub fn bytes_to_json(b: &[u8]) -> Value {
    Value::Array(b.iter().map(|x| Value::from(*x)).collect())
}
pub fn json_to_bytes(v: &Value) -> Vec<u8> {
    v.as_array().expect("byte array").iter().map(|x| x.as_u64().unwrap() as u8).collect()
}
/// Shift-JIS byte sequence -> String (the codec is trusted base)
pub fn sjis_to_string(b: &[u8]) -> String {
    let (s, _, _) = encoding_rs::SHIFT_JIS.decode(b);
    s.into_owned()
}
/// String -> Shift-JIS bytes, None if not representable
pub fn string_to_sjis(s: &str) -> Option<Vec<u8>> {
    let (b, _, err) = encoding_rs::SHIFT_JIS.encode(s);
    if err { None } else { Some(b.into_owned()) }
}
/// true iff encode->decode is the identity and no NUL inside (domain of C01/C06 strings)
pub fn sjis_lossless(s: &str) -> bool {
    if s.contains('\0') {
        return false;
    }
    match string_to_sjis(s) {
        Some(b) => !b.contains(&0) && sjis_to_string(&b) == s,
        None => false,
    }
}
/// String -> UTF-16 code units
pub fn str_to_utf16(s: &str) -> Value {
    Value::Array(s.encode_utf16().map(Value::from).collect())
}

pub fn usage(msg: &str) -> ! {
    eprintln!("usage: {}", msg);
    std::process::exit(2)
}

// ---- allocation tracking (C05/C09/C11/C20: "no buffer sized by an unchecked field") -----------------
use std::alloc::{GlobalAlloc, Layout, System};
use std::sync::atomic::{AtomicUsize, Ordering};

pub struct TrackAlloc;
static MAX_REQ: AtomicUsize = AtomicUsize::new(0);
/// single requests above this are refused (null -> alloc error -> abort, observed by the supervisor)
pub const ALLOC_REFUSE: usize = 1 << 30;

unsafe impl GlobalAlloc for TrackAlloc {
    unsafe fn alloc(&self, l: Layout) -> *mut u8 {
        MAX_REQ.fetch_max(l.size(), Ordering::Relaxed);
        if l.size() > ALLOC_REFUSE {
            return std::ptr::null_mut();
        }
        System.alloc(l)
    }
    unsafe fn alloc_zeroed(&self, l: Layout) -> *mut u8 {
        MAX_REQ.fetch_max(l.size(), Ordering::Relaxed);
        if l.size() > ALLOC_REFUSE {
            return std::ptr::null_mut();
        }
        System.alloc_zeroed(l)
    }
    unsafe fn dealloc(&self, p: *mut u8, l: Layout) {
        System.dealloc(p, l)
    }
    unsafe fn realloc(&self, p: *mut u8, l: Layout, new_size: usize) -> *mut u8 {
        MAX_REQ.fetch_max(new_size, Ordering::Relaxed);
        if new_size > ALLOC_REFUSE {
            return std::ptr::null_mut();
        }
        System.realloc(p, l, new_size)
    }
}
pub fn alloc_reset() {
    MAX_REQ.store(0, Ordering::Relaxed);
}
/// largest single allocation request since the last alloc_reset()
pub fn alloc_max() -> usize {
    MAX_REQ.load(Ordering::Relaxed)
}

// ---- isolated execution ------------------------------------------------------------------------------
/// Runs f on cases[from..]; protocol with the python supervisor (vlib.Ctx.isolated): "S <i>" on stdout before a
/// case, the JSON result (with "i") appended to out_path, then "D <i>".  If this process dies or hangs inside
/// f the supervisor knows which case did it, records outcome abort/timeout and restarts after it.
pub fn run_isolated(cases: &[Value], from: usize, out_path: &str, mut f: impl FnMut(usize, &Value) -> Value) {
    use std::fs::OpenOptions;
    let mut out = OpenOptions::new().create(true).append(true).open(out_path).expect("open out");
    let stdout = std::io::stdout();
    for (i, c) in cases.iter().enumerate().skip(from) {
        {
            let mut so = stdout.lock();
            writeln!(so, "S {}", i).unwrap();
            so.flush().unwrap();
        }
        alloc_reset();
        let t = std::time::Instant::now();
        let mut r = f(i, c);
        let ms = t.elapsed().as_millis() as u64;
        if let Some(o) = r.as_object_mut() {
            o.insert("i".to_string(), Value::from(i));
            o.insert("max_alloc".to_string(), Value::from(alloc_max()));
            o.insert("ms".to_string(), Value::from(ms));
        }
        let mut line = serde_json::to_vec(&r).unwrap();
        line.push(b'\n');
        out.write_all(&line).unwrap(); // one write per result (the file is unbuffered on purpose: a crash loses nothing)
        out.flush().unwrap();
        {
            let mut so = stdout.lock();
            writeln!(so, "D {}", i).unwrap();
            so.flush().unwrap();
        }
    }
}
