//! mvh — conformance harness binding the TLA+ specifications in /verif/spec to the mila library.
//! Shared library (helpers, archive projection, tracking allocator); one binary per subsystem in src/bin.
pub mod proj;
pub mod util;

#[global_allocator]
static GLOBAL: util::TrackAlloc = util::TrackAlloc;
