//! mvh — conformance harness binding the TLA+ specifications in /verif/spec to the mila library.
//! `mvh <subsystem> <mode> [args...]`; see each module.
mod util;
mod textarchive;

fn main() {
    util::install_panic_hook();
    let args: Vec<String> = std::env::args().skip(1).collect();
    if args.is_empty() {
        util::usage("mvh <subsystem> <mode> [args]");
    }
    let rest = &args[1..];
    match args[0].as_str() {
        "textarchive" => textarchive::main(rest),
        other => util::usage(&format!("unknown subsystem {}", other)),
    }
}
